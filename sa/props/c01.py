"""C01 - daily water balance closes (structural necessary conditions only)."""
from __future__ import annotations
import ast
import re
from fractions import Fraction
from typing import Dict, List, Optional, Set, Tuple

from .. import affine as A
from ..symb import Sym
from ..common import STEP_FN, STEP_ROOT, RESET_FN, UPDATE_FN, RUN_ROOT, step_roles
from ..cp import row_writers, output_columns, step_local
from ..effects import stores
from ..model import norm, walk_no_nested, AnalysisError, FuncInfo
from ..rdef import flow_of, ENTRY

EXPLANATION = (
    "The numeric closure of the balance (1e-6 mm) is C01.g (T-ARGS): in no call below the daily step are two positional arguments bound crosswise (the actual at i spelled like formal j and the actual at j like formal i): the fluxes and states are threaded through long positional lists. NOT decided. Decided, for all inputs: C01.a carry-over: between "
    "two calls of the daily solution the only stores to the water content / ponding are those of the season reset, "
    "under sim_off_season is False, and the configured initial content they restore is never written in place or "
    "aliased (shared with C08.b). C01.b conservation per store (polynomial normal forms): in pre-irrigation, "
    "capillary rise, groundwater inflow, transpiration (root extraction, net irrigation, surface transpiration) and "
    "soil evaporation (surface storage, stage 1, stage 2) every store to a water-content cell or to the ponding depth is "
    "paired, in the same block, with an update of the process's reported flux by exactly the stored change "
    "(delta theta * 1000 * dz, resp. the ponding change) - for evaporation through the invariant W + EsAct of the "
    "compartment's water depth W - and every flux update is paired with such a store (the 4-decimal rounding of "
    "capillary rise is the tolerance the property states). C01.c flux threading: each flux returned by a process "
    "reaches its column or the later process that continues it, and that process adds it into the flux it returns "
    "(DeepPerc0 -> DeepPerc, Runoff0 -> RunoffTot). C01.d column agreement (T-COLS). C01.e: the two linear conservation "
    "templates of infiltration's surface block (water to store + ponding + initial runoff = arriving water + previous "
    "ponding; ponding + runoff unchanged by the bund re-routing block) hold on every path. drainage and infiltration's "
    "internal redistribution loops are not under C01.b (several interacting accumulators; no exact pairing rule). "
    "C01.f thickness agreement: at every site where a water depth and a water content are converted into each other "
    "with a single compartment's thickness (1000*dz[k], directly or through a local alias whose index has not been "
    "redefined since), the compartment-indexed elements of the same statement use the index k - backed-up or "
    "redistributed water is stored with the thickness of the compartment that receives it (this rule does cover the "
    "drainage and infiltration loops).")

TH_PATH = re.compile(r"^STATE\.th(\[\])?$")


def _calls(prog, fi, name):
    return [c for c, t in prog.calls_in(fi) if getattr(t, "name", None) == name]


def rule_a(chk, prog):
    roles = step_roles(prog)
    outside = [STEP_ROOT, UPDATE_FN, RESET_FN, "aquacrop.timestep.check_if_model_is_finished:check_model_is_finished",
               "aquacrop.timestep.outputs_when_model_is_finished:outputs_when_model_is_finished", RUN_ROOT]
    n = 0
    for key in outside:
        fi = prog.func(key)
        chk.fn(key)
        flow = flow_of(fi)
        for st in stores(prog, fi, roles if key in roles.reached else None):
            paths = st.paths
            hits = [p for p in paths if p in ("STATE.th", "STATE.surface_storage") or p.startswith("STATE.th[")]
            if not hits and st.kind == "attr" and st.field in ("th", "surface_storage") and key not in roles.reached:
                hits = [st.field]
            if not hits:
                continue
            n += 1
            where = f"{fi.module}:{fi.qualname}"
            nid = flow.stmt_node.get(id(st.node))
            deps = {(norm(flow.cfg.nodes[t].ast), l) for t, l in flow.cfg.transitive_control_deps(nid) if flow.cfg.nodes[t].kind == "test"} if nid is not None else set()
            guarded = any(t.endswith(".sim_off_season is False") and l is True for t, l in deps)
            v = getattr(st.node, "value", None)
            vt = norm(v) if v is not None else ""
            if key == RESET_FN and guarded:
                if st.field == "th":
                    good = "thini" in vt
                    detail = "restores the configured initial water content"
                else:
                    good = vt == "0" or ("bund_water" in vt and "z_bund" in vt)
                    detail = "restores the configured initial ponding"
                if good:
                    chk.ok("C01.a", where, st.text, detail + " (off-season not simulated)")
                    continue
            chk.violation("C01.a", where, st.text,
                          "stored water is changed between two simulated days outside the documented season reset "
                          "(reset_initial_conditions under sim_off_season is False restoring thini / the initial ponding)", loc=fi.loc(st.node))
    chk.floor("C01.a", n, 3, "stores to water content / ponding between steps")
    from .c08 import rule_b as thini_rule
    before = len(chk.violations)
    thini_rule(chk, prog)
    for v in chk.violations[before:]:
        v["rule"] = "C01.a"
    for i in chk.instances:
        if i["rule"] == "C08.b":
            i["rule"] = "C01.a"
    for f in chk.floors:
        if f["rule"] == "C08.b":
            f["rule"] = "C01.a-thini"


# --------------------------------------------------------------------------------------------- C01.b

class Proc:
    def __init__(self, prog, name, step):
        self.fi = prog.find_func(name)
        self.where = f"{self.fi.module}:{self.fi.qualname}"
        call = _calls(prog, step, name)
        if len(call) != 1:
            raise AnalysisError(f"expected one call of {name} in the step")
        self.call = call[0]
        asg = [n for n in walk_no_nested(step.node) if isinstance(n, ast.Assign) and n.value is self.call]
        if not asg:
            raise AnalysisError(f"result of {name} is not assigned in the step")
        t = asg[0].targets[0]
        self.targets = t.elts if isinstance(t, ast.Tuple) else [t]
        rets = [r for r in walk_no_nested(self.fi.node) if isinstance(r, ast.Return)]
        self.rets = rets
        self.ret_elts = [(r.value.elts if isinstance(r.value, ast.Tuple) else [r.value]) for r in rets]

    def returned_name(self, target_pred) -> Optional[str]:
        pos = next((i for i, t in enumerate(self.targets) if target_pred(t)), None)
        if pos is None:
            return None
        names = {norm(e[pos]) for e in self.ret_elts if pos < len(e)}
        return names.pop() if len(names) == 1 else None


def _flows_into(fi: FuncInfo, ledger: str) -> Set[str]:
    """locals whose value is added into the ledger variable (summands of its accumulations), and accumulators that are
    copied into it (CrTot = WCr)"""
    def accumulator_like(name: str) -> bool:
        zero = acc = False
        for a in walk_no_nested(fi.node):
            if isinstance(a, ast.Assign) and len(a.targets) == 1 and isinstance(a.targets[0], ast.Name) and a.targets[0].id == name:
                if isinstance(a.value, ast.Constant) and a.value.value == 0:
                    zero = True
                elif any(isinstance(n, ast.Name) and n.id == name for n in ast.walk(a.value)):
                    acc = True
        return zero and acc
    out = {ledger}
    changed = True
    while changed:
        changed = False
        for a in walk_no_nested(fi.node):
            if isinstance(a, ast.Assign) and len(a.targets) == 1 and isinstance(a.targets[0], ast.Name) and a.targets[0].id in out:
                tgt = a.targets[0].id
                accumulating = any(isinstance(n, ast.Name) and n.id == tgt for n in ast.walk(a.value))
                for n in ast.walk(a.value):
                    if isinstance(n, ast.Name) and n.id not in out and _additive(a.value, n):
                        if accumulating or (a.value is n and accumulator_like(n.id)):
                            out.add(n.id)
                            changed = True
    return out


def _additive(e: ast.AST, name_node: ast.Name) -> bool:
    """name occurs as a top-level summand (or is the whole expression)"""
    if e is name_node:
        return True
    if isinstance(e, ast.BinOp) and isinstance(e.op, ast.Add):
        return _additive(e.left, name_node) or _additive(e.right, name_node)
    return False


def _strip_round(e: ast.AST) -> ast.AST:
    class R(ast.NodeTransformer):
        def visit_Call(self, node):
            self.generic_visit(node)
            if isinstance(node.func, ast.Name) and node.func.id == "round" and len(node.args) == 2:
                return node.args[0]
            return node
    import copy
    return R().visit(copy.deepcopy(e))


def conservation(chk, prog, pname: str, ledgers: Dict[str, int], roles, step, tolerate_round=False, force=None, consts=None):
    """ledgers: returned flux name predicate key -> sign (+1 water added to the profile, -1 extracted)"""
    P = Proc(prog, pname, step)
    fi = P.fi
    chk.fn(fi.key)
    flow = flow_of(fi)
    cfg = flow.cfg
    sym = Sym(prog, fi, force=force, consts=consts)
    led: Dict[str, int] = {}
    for col, sign in ledgers.items():
        nm = P.returned_name(lambda t, col=col: isinstance(t, ast.Name) and t.id == col)
        if nm is None:
            raise AnalysisError(f"{pname}: cannot identify the returned flux that the step names {col}")
        led[nm] = sign
    flowvars: Dict[str, int] = {}
    for nm, sign in led.items():
        for v in _flows_into(fi, nm):
            flowvars[v] = sign
    # water stores
    wstores = []
    for a in walk_no_nested(fi.node):
        if isinstance(a, (ast.Assign, ast.AugAssign)):
            t = a.targets[0] if isinstance(a, ast.Assign) else a.target
            if isinstance(t, ast.Subscript) and any(TH_PATH.match(p) for p in roles.paths(fi, t.value)):
                wstores.append(("th", a, t))
            elif isinstance(t, ast.Attribute) and t.attr == "surface_storage" and any(p == "STATE" for p in roles.paths(fi, t.value)):
                wstores.append(("pond", a, t))
            elif isinstance(t, ast.Name) and any(p == "STATE.surface_storage" for p in roles.paths(fi, ast.copy_location(ast.Name(id=t.id, ctx=ast.Load()), t))) and False:
                pass
    # scalar formal carrying the ponding depth
    pond_formal = None
    for i, arg in enumerate(P.call.args):
        if isinstance(arg, ast.Attribute) and arg.attr == "surface_storage" and i < len(fi.params):
            pond_formal = fi.params[i]
    if pond_formal:
        for a in walk_no_nested(fi.node):
            if isinstance(a, ast.Assign) and isinstance(a.targets[0], ast.Name) and a.targets[0].id == pond_formal:
                wstores.append(("pond", a, a.targets[0]))
    # accumulations of flux variables
    accs = []
    for a in walk_no_nested(fi.node):
        if isinstance(a, ast.Assign) and len(a.targets) == 1 and isinstance(a.targets[0], ast.Name) and a.targets[0].id in flowvars:
            if isinstance(a.value, ast.Constant) and a.value.value == 0:
                continue
            accs.append(a)
        elif isinstance(a, ast.AugAssign) and isinstance(a.target, ast.Name) and a.target.id in flowvars:
            accs.append(a)
    used_accs = set()
    n_pairs = 0
    for kind, a, t in wstores:
        nid = flow.stmt_node.get(id(a))
        if nid is None or nid not in sym.state_in:
            continue
        st = sym.state_in[nid]
        valexpr = a.value if isinstance(a, ast.Assign) else ast.BinOp(left=_ld(t), op=a.op, right=a.value)
        new = sym.nf(valexpr, st)
        old = sym.nf(_ld(t), st)
        delta = A.add(new, old, -1)
        construct = norm(a)[:90]
        if not delta:
            chk.ok("C01.b", P.where, construct, "store leaves the value unchanged", nontrivial=False)
            continue
        if kind == "th":
            dz = _dz_expr(fi, t)
            if dz is None:
                # build <profile formal>.dz[<index>] from the formal bound to the soil profile
                pf = next((x for x in fi.params if any(q == "PARAM.Soil.Profile" for q in roles.env.get(fi.key, {}).get(x, ()))), None)
                if pf is None:
                    chk.violation("C01.b", P.where, construct, "cannot find the compartment thickness that converts this water-content change to mm", loc=fi.loc(a))
                    continue
                dz = ast.parse(f"{pf}.dz[{norm(t.slice)}]", mode="eval").body
            water = A.mul(A.mul(delta, sym.nf(dz, st)), A.const(1000))
        else:
            water = delta
        # same-block accumulations
        mydeps = cfg.transitive_control_deps(nid)
        cands = [b for b in accs if flow.stmt_node.get(id(b)) in sym.state_in and cfg.transitive_control_deps(flow.stmt_node[id(b)]) == mydeps]
        matched = None
        for b in cands:
            bn = flow.stmt_node[id(b)]
            sb = sym.state_in[bn]
            tgt = b.targets[0] if isinstance(b, ast.Assign) else b.target
            bval = b.value if isinstance(b, ast.Assign) else ast.BinOp(left=_ld(tgt), op=b.op, right=b.value)
            if tolerate_round:
                bval = _strip_round(bval)
            amt = A.add(sym.nf(bval, sb) if not tolerate_round else Sym.nf(sym, bval, sb), sym.nf(_ld(tgt), sb), -1)
            if tgt.id in flowvars and not _is_accumulating(b, tgt.id):
                # plain definition of a per-step amount (CRcomp = ..., TrAct0 = ...): amount is the value itself
                amt = sym.nf(bval, sb)
            sign = flowvars[tgt.id]
            w2 = water
            if tolerate_round:
                pass
            if A.equal(amt, A.mul(A.const(sign), w2)):
                matched = b
                break
        if matched is None and tolerate_round:
            # retry with rounding stripped from the temporaries the amount is built from
            matched = _match_with_round(sym, fi, flow, cands, water, flowvars, st)
        if matched is not None:
            used_accs.add(id(matched))
            n_pairs += 1
            chk.ok("C01.b", P.where, construct, f"paired with `{norm(matched)[:60]}`: flux changes by exactly the stored water")
        else:
            # the W-depth idiom of soil evaporation: th[c] = W / (1000 dz[c]) with W + EsAct invariant
            ok, why, used = _w_idiom(sym, fi, flow, a, t, flowvars, accs)
            if ok:
                n_pairs += 1
                used_accs |= used
                chk.ok("C01.b", P.where, construct, why)
            else:
                chk.violation("C01.b", P.where, construct,
                              f"the stored water changes by {A.text(water)[:110]} but no update of the reported flux "
                              f"({', '.join(sorted(led))}) in the same block accounts for exactly that amount{why}", loc=fi.loc(a))
    for b in accs:
        if id(b) in used_accs:
            continue
        tgt = b.targets[0] if isinstance(b, ast.Assign) else b.target
        if not _is_accumulating(b, tgt.id):
            # a per-step amount; it must be consumed by an accumulation that was paired, or be paired itself
            continue
        # accumulation that only forwards an already paired amount (WCr = WCr + CRcomp; TrAct = TrAct + TrAct0; CrTot = WCr)
        summands = [n.id for n in ast.walk(b.value) if isinstance(n, ast.Name) and n.id != tgt.id] if isinstance(b, ast.Assign) else [n.id for n in ast.walk(b.value) if isinstance(n, ast.Name)]
        if summands and all(sv in flowvars for sv in summands):
            chk.ok("C01.b", P.where, norm(b)[:80], "forwards an amount that is paired with its store", nontrivial=False)
            continue
        chk.violation("C01.b", P.where, norm(b)[:80], "the reported flux is increased without a matching change of stored water in the same block", loc=fi.loc(b))
    return n_pairs


def _is_accumulating(b, name) -> bool:
    if isinstance(b, ast.AugAssign):
        return True
    return any(isinstance(n, ast.Name) and n.id == name for n in ast.walk(b.value))


def _ld(t: ast.AST) -> ast.AST:
    import copy
    c = copy.deepcopy(t)
    for sub in ast.walk(c):
        if hasattr(sub, "ctx"):
            sub.ctx = ast.Load()
    return c


def _dz_expr(fi, target: ast.Subscript) -> Optional[ast.AST]:
    idx = norm(target.slice)
    for n in walk_no_nested(fi.node):
        if isinstance(n, ast.Subscript) and isinstance(n.value, ast.Attribute) and n.value.attr == "dz" and norm(n.slice) == idx:
            return n
    return None


def _match_with_round(sym, fi, flow, cands, water, flowvars, st_store):
    """capillary rise: the amount is built from dth = round(th_fc_Adj - th, 4): compare with rounding removed"""
    for b in cands:
        tgt = b.targets[0] if isinstance(b, ast.Assign) else b.target
        bn = flow.stmt_node[id(b)]
        # substitute single-definition temporaries, stripping round(., k)
        def expand(e, depth=0):
            e = _strip_round(e)
            if depth > 6:
                return e
            class S(ast.NodeTransformer):
                def visit_Name(self, node):
                    nid = flow.node_of(node) or bn
                    ds = flow.defs_reaching(node.id, bn)
                    if len(ds) == 1 and ds[0] != ENTRY and node.id not in flowvars:
                        d = flow.cfg.nodes[ds[0]].ast
                        if isinstance(d, ast.Assign) and len(d.targets) == 1 and isinstance(d.targets[0], ast.Name) and \
                                any(isinstance(x, ast.Call) and isinstance(x.func, ast.Name) and x.func.id == "round" for x in ast.walk(d.value)):
                            return expand(d.value, depth + 1)
                    return node
            import copy
            return S().visit(copy.deepcopy(e))
        bval = b.value if isinstance(b, ast.Assign) else b.value
        amt = sym.nf(expand(bval), st_store)
        if A.equal(amt, A.mul(A.const(flowvars[tgt.id]), water)):
            return b
    return None


def _w_idiom(sym, fi, flow, a, t, flowvars, accs):
    """th[c] = W / (1000*dz[c]) where W = 1000*th[c]*dz[c] earlier in the same loop body and W + ledger is invariant"""
    v = a.value if isinstance(a, ast.Assign) else None
    if v is None:
        return False, "", set()
    names = [n.id for n in ast.walk(v) if isinstance(n, ast.Name)]
    wname = None
    for nm in names:
        defs = [d for d in walk_no_nested(fi.node) if isinstance(d, ast.Assign) and isinstance(d.targets[0], ast.Name) and d.targets[0].id == nm]
        if any(norm(t.value) in norm(d.value) and "1000" in norm(d.value) for d in defs):
            wname = nm
    if wname is None:
        return False, "", set()
    nid = flow.stmt_node[id(a)]
    cfg = flow.cfg
    # the defining statement W = 1000 * th[c] * dz[c] that dominates the store, nearest
    doms = cfg.dominators()[nid]
    wdefs = [d for d in walk_no_nested(fi.node) if isinstance(d, ast.Assign) and isinstance(d.targets[0], ast.Name) and d.targets[0].id == wname
             and flow.stmt_node.get(id(d)) in doms and norm(t.value) in norm(d.value)]
    if not wdefs:
        return False, "", set()
    wd = max(wdefs, key=lambda d: d.lineno)
    wdn = flow.stmt_node[id(wd)]
    dz = _dz_expr(fi, t)
    st_wd = sym.state_in[wdn]
    want_w0 = A.mul(A.mul(sym.nf(_ld(t), st_wd), sym.nf(dz, st_wd)), A.const(1000))
    if not A.equal(sym.nf(wd.value, st_wd), want_w0):
        return False, f"; {wname} is not initialised to the compartment's water depth", set()
    st = sym.state_in[nid]
    want_new = A.mul(A.mul(sym.nf(ast.Name(id=wname, ctx=ast.Load()), st), A.inverse(sym.nf(dz, st))), A.const(Fraction(1, 1000)))
    if not A.equal(sym.nf(v, st), want_new):
        return False, f"; the stored value is not {wname}/(1000*dz)", set()
    # invariant W + sum(ledger vars with sign -1 => +) between wd and the store
    ledger_vars = [x for x, s in flowvars.items() if s == -1]
    used = set()
    ok_any = False
    for lv in ledger_vars:
        succ = [s for s, _ in cfg.nodes[wdn].succs]
        if not succ:
            continue
        s2 = Sym(sym.prog, fi, templates={"Q": {wname: 1, lv: 1}}, reset_at={"Q": succ[0]}, force=sym.force, consts=sym.consts)
        st0 = s2.state_in.get(succ[0])
        if st0 is None:
            continue
        before = A.add(st0.env.get(wname, A.atom(wname)), st0.env.get(lv, A.atom(lv)))
        aft = s2.template_at("Q", nid)
        between = [b for b in accs if (b.targets[0] if isinstance(b, ast.Assign) else b.target).id == lv
                   and wdn in cfg.dominators().get(flow.stmt_node.get(id(b)), set()) and flow.stmt_node.get(id(b)) is not None
                   and cfg.paths_exist_avoiding(flow.stmt_node[id(b)], nid, set())]
        if aft is not None and A.equal(before, aft) and between:
            ok_any = True
            used |= {id(b) for b in between}
    if ok_any:
        return True, f"water depth idiom: {wname} = 1000*theta*dz, {wname} + reported flux invariant up to the store, theta' = {wname}/(1000*dz)", used
    return False, f"; {wname} + reported flux is not invariant between its definition and the store", set()


def rule_b(chk, prog):
    roles = step_roles(prog)
    step = prog.func(STEP_FN)
    total = 0
    L = lambda k: step_local(prog, k)       # the step's locals by provenance (output column / callee), not by spelling
    total += conservation(chk, prog, "pre_irrigation", {L("pre_irr"): +1}, roles, step)
    total += conservation(chk, prog, "groundwater_inflow", {L("col:GwIn"): +1}, roles, step)
    total += conservation(chk, prog, "capillary_rise", {L("col:CR"): +1}, roles, step, tolerate_round=True)
    total += conservation(chk, prog, "transpiration", {L("col:Tr"): -1, L("irr_net"): +1}, roles, step)
    total += conservation(chk, prog, "soil_evaporation", {L("col:Es"): -1}, roles, step)
    chk.floor("C01.b", total, 9, "store / flux pairs verified")


# --------------------------------------------------------------------------------------------- C01.c

def rule_c(chk, prog):
    step = prog.func(STEP_FN)
    s = Sym(prog, step, force={"growing_season is True": True, "growing_season is False": False})
    inf = prog.find_func("infiltration")
    call = _calls(prog, step, "infiltration")[0]
    n = s.cfg.node_of([a for a in walk_no_nested(step.node) if isinstance(a, ast.Assign) and a.value is call][0])
    st = s.state_in[n.id]
    # drainage's DeepPerc and FluxOut are the actuals of infiltration
    actual = {inf.params[i]: A.text(s.nf(a, st)) for i, a in enumerate(call.args)}
    src = {f: v for f, v in actual.items() if v.startswith("drainage@")}
    construct = "infiltration receives drainage's deep percolation and compartment fluxes"
    if len(src) >= 2:
        chk.ok("C01.c", STEP_FN, construct, ", ".join(f"{k} <- {v.split('~')[0]}" for k, v in sorted(src.items())))
    else:
        chk.violation("C01.c", STEP_FN, construct, f"deep percolation / compartment fluxes computed by drainage are not handed to infiltration ({src})", loc=step.loc(call))
    # in infiltration: returned deep percolation = own + incoming
    si = Sym(prog, inf)
    ret = [r for r in walk_no_nested(inf.node) if isinstance(r, ast.Return)][0]
    targets = [a for a in walk_no_nested(step.node) if isinstance(a, ast.Assign) and a.value is call][0].targets[0].elts
    pos_dp = next(i for i, t in enumerate(targets) if isinstance(t, ast.Name) and t.id == step_local(prog, "col:DeepPerc"))
    f_dp0 = next((f for f, v in src.items() if v.split("~")[0].endswith("[1]")), None)
    for nn, stt in si.at_return():
        got = si.nf(ret.value.elts[pos_dp], stt)
        c = sum(cf for m, cf in got.items() if m == ((f_dp0, 1),)) if f_dp0 else 0
        construct = f"infiltration: returned deep percolation includes {f_dp0} exactly once"
        if c == 1:
            chk.ok("C01.c", f"{inf.module}:{inf.qualname}", construct, A.text(got)[:80])
        else:
            chk.violation("C01.c", f"{inf.module}:{inf.qualname}", construct, f"deep percolation from drainage is dropped or double counted: {A.text(got)[:100]}", loc=inf.loc(nn.ast))
    # every process flux reaches its column (T-COLS does the per-column provenance); PreIrr reaches IrrNet
    wf = row_writers(prog)["water_flux"]
    stw = s.state_in[s.cfg.node_of(wf).id]
    irrnet = A.text(s.nf(ast.Name(id=step_local(prog, "irr_net"), ctx=ast.Load()), stw))
    if "pre_irrigation@" in irrnet and "transpiration@" in irrnet:
        chk.ok("C01.c", STEP_FN, "IrrNet = transpiration's net requirement + PreIrr", irrnet[:90])
    else:
        chk.violation("C01.c", STEP_FN, "IrrNet = transpiration's net requirement + PreIrr", f"net irrigation reported is {irrnet[:90]}", loc=step.loc(wf))


def run(chk, prog, tier):
    rule_a(chk, prog)
    rule_b(chk, prog)
    rule_c(chk, prog)
    from .c06 import tcols
    tcols(chk, prog, rule="C01.d")
    # C01.e: surface bookkeeping of infiltration (shared with C02.c)
    from . import c02
    before = len(chk.instances)
    c02.run_surface_only(chk, prog)
    for i in chk.instances[before:]:
        i["rule"] = "C01.e"
    for v in chk.violations:
        if v["rule"] == "C02.c":
            v["rule"] = "C01.e"
    chk.assume("A-10")
    # C01.g: no two positional arguments of a call below the daily step are bound crosswise (T-ARGS)
    from ._args import arg_swaps
    chk.floor("C01.g", arg_swaps(chk, prog, "C01.g", prog.reachable_from(STEP_FN)), 45, "positional calls of repository functions below the daily step")
    # C01.f: thickness agreement of every depth <-> content conversion (covers drainage / infiltration redistribution loops too)
    from . import _thick
    n = _thick.scan(chk, prog, "C01.f", prog.reachable_from(STEP_FN))
    chk.floor("C01.f", n, 45, "depth <-> water-content conversion sites with a single-compartment thickness")
