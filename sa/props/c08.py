"""C08 - seasons are independent when the off-season is skipped."""
from __future__ import annotations
import ast
from typing import Dict, List, Set, Tuple

from ..absint import Interp, Const, Obj, TOP, In, tflat
from ..common import STEP_FN, RESET_FN, UPDATE_FN, step_roles, init_roles
from ..da import local_literal_domains
from ..effects import stores
from ..flags import DOMAINS
from ..model import norm, walk_no_nested, AnalysisError

EXPLANATION = (
    "C08.a (information flow): the state fields that reset_initial_conditions restores on the valuation "
    "sim_off_season=False are computed (field not dependent on its own entry value on any path). The first day of a "
    "season is then interpreted abstractly (interprocedural constant propagation + taint): restored fields start from "
    "their reset values, every other field of InitialCondition carries a taint token. A token that reaches a branch "
    "condition, an output row, an in-place array write or another state field is state of the previous season leaking "
    "into the new one - unless the field is a run constant (never modified after initialisation on that valuation). "
    "Fields still holding their entry value after day 1 are followed through a general day. Literal reset values are "
    "compared with the constructor defaults of a fresh run. C08.b: the configured initial water content (thini) is "
    "never aliased with the live water content and never written in place (alias/effect analysis over initialisation "
    "and stepping). C08.c: the season reset rewrites the CO2 factor of the starting season's own (deep-copied) crop. "
    "C08.d: no in-place store below _perform_timestep targets the weather matrix or a numpy view of it (slices and "
    "boolean-mask selections are distinguished by the view/copy table), so every season reads the weather the single-season run reads. "
    "C08.e: the thermal-time calendar of a SwitchGDD crop must not be an aggregate over the seasons of the window (reported: prepare_gdd's "
    "mean / median over all seasons - known finding F19, the documented behaviour of the conversion). C08.f (sibling agreement): the CO2 adjustment is computed by compute_variables for the first season and by the season reset for later ones; the defining expressions of its seven quantities are the same sets. C08.b also: the snapshot thini is taken from the final initial profile - no store to the water content (rebinding or in place) follows it in the initial-conditions routine (the groundwater adjustments come first). C08.g: the season reset reads the season's CO2 concentration from the yearly series by label (the year of the clock's step start), never by position - the series starts with the year of the simulation start, the seasons with the first planting date on or after it. C08.h: the ponding restored at a season start is computed from the in-season field management (access path), as in the initial conditions of a run that starts in season 0. C08.i: a latest harvest date derived from the first season's days to maturity while the days to maturity of thermal-time crops are re-derived per season (reported: known finding F43). C08.j (sibling agreement): the crop parameters derived from the season's calendar by a calculate_* routine (harvest-index growth coefficient, linear switch point and rate) are assigned the same expressions under the same crop-type tests by compute_variables (first season) and by the season reset (later seasons of thermal-time crops). C08.k (= C05.c): the four implementations of the degree-day formula (daily step, initialisation, season reset, SwitchGDD preparation) apply the same clamps per method. C08.l (= C14.k): while stepping, the per-season date tables of the clock are read only at the season counter (or counter + 1) - never at an index derived from the number of seasons, a constant or the end of the table, which would take one season's calendar from another season's dates. NOT decided: bitwise equality of the two runs.")

L = frozenset
ST = ("state",)
CK = ("clock",)
PS = ("params",)


def reset_summary(prog, chk):
    fi = prog.func(RESET_FN)
    chk.fn(fi.key)
    fields = sorted(prog.cls("InitialCondition").init_fields)
    params = fi.params
    # formal names by position: (ClockStruct, InitCond, ParamStruct, weather, crop)
    up = prog.func(UPDATE_FN)
    call = [c for c, t in prog.calls_in(up) if getattr(t, "key", None) == fi.key]
    if not call:
        raise AnalysisError("update_time no longer calls reset_initial_conditions")
    # identify the InitialCondition formal: the one annotated so, else by name
    st_formal = next((a.arg for a in fi.node.args.args if isinstance(a.annotation, ast.Constant) and a.annotation.value == "InitialCondition"), None)
    ck_formal = next((a.arg for a in fi.node.args.args if isinstance(a.annotation, ast.Constant) and a.annotation.value == "ClockStruct"), None)
    if not st_formal or not ck_formal:
        raise AnalysisError("cannot identify the state / clock formals of reset_initial_conditions")
    heap = {(ST, f): In(f) for f in fields}
    heap[(CK, "sim_off_season")] = Const(False)
    taint = {("h", ST, f): frozenset([f]) for f in fields}
    # (interprocedural: the reset hands state to check_groundwater_table / start_under_water_table; what the restored water content
    # depends on is decided inside them - e.g. the adjusted field capacity passed in is not used when a water table is present)
    it = Interp(prog, fi, domains=DOMAINS, param_vals={st_formal: Obj(ST), ck_formal: Obj(CK)}, init_heap=heap,
                part_key="bound", taint=True, init_taint=taint, local_domains=local_literal_domains(fi), interprocedural=True,
                axioms=[("CO2ref", "#550", L("<"))]).run()
    exits = it.in_states.get(it.cfg.exit, [])
    if not exits:
        raise AnalysisError("reset_initial_conditions has no reachable exit on sim_off_season=False")
    restored: Dict[str, object] = {}
    deps: Dict[str, frozenset] = {}
    for f in fields:
        ts = [tflat(p.taint.get(("h", ST, f), frozenset())) for p in exits]
        if all(f not in t for t in ts):
            vals = [p.heap.get((ST, f), TOP) for p in exits]
            v = vals[0]
            for w in vals[1:]:
                from ..absint import join_val
                v = join_val(v, w)
            restored[f] = v
            d = frozenset()
            for t in ts:
                d |= t
            deps[f] = d
    return restored, deps, fields, it


def _day(prog, entry: Dict[str, Tuple[object, frozenset]], config: Dict[str, object], premise: bool):
    """interpret one day; entry: field -> (abstract value, taint). Returns (interp, sinks)."""
    fi = prog.func(STEP_FN)
    a = fi.node.args.args
    names = {x.annotation.value: x.arg for x in a if isinstance(x.annotation, ast.Constant)}
    st_formal, ck_formal, ps_formal = names.get("InitialCondition"), names.get("ClockStruct"), names.get("ParamStruct")
    if not (st_formal and ck_formal and ps_formal):
        raise AnalysisError("cannot identify the formals of solution_single_time_step")
    heap = {}
    taint = {}
    for f, (v, t) in entry.items():
        if v is not TOP:
            heap[(ST, f)] = v
        taint[("h", ST, f)] = t
    heap[(CK, "sim_off_season")] = Const(False)
    for k, v in config.items():
        heap[(PS, k)] = Const(v)
    axioms = []
    callee_axioms = {}
    if premise:
        # first day of season k: the step starts on the planting date of the current season
        axioms = [(f"@{CK}.season_counter", "#0", L("=>")), ("planting_date", "CurrentDate", L("<=")),
                  ("harvest_date", "CurrentDate", L(">"))]
        # (no axiom on the development time: since fix F28 the reset restores cc0_adj itself)
        callee_axioms = {}
    sinks: list = []
    it = Interp(prog, fi, domains=DOMAINS, param_vals={st_formal: Obj(ST), ck_formal: Obj(CK), ps_formal: Obj(PS)},
                init_heap=heap, interprocedural=True, part_key="vars", split_vars=["growing_season"],
                local_domains=local_literal_domains(fi), taint=True, init_taint=taint, sinks=sinks, axioms=axioms)
    it.callee_axioms = callee_axioms
    it.run()
    return it, sinks


def _run_cfg(args):
    prog, restored, deps, fields, config = args
    out = {"config": config, "leaks": [], "carried": [], "used": {}, "general_leaks": []}
    entry = {}
    for f in fields:
        if f in restored:
            entry[f] = (restored[f] if not isinstance(restored[f], In) else TOP, deps[f])
        else:
            entry[f] = (In(f), frozenset([f]))
    it, sinks = _day(prog, entry, config, premise=True)
    exits = it.in_states.get(it.cfg.exit, [])
    fi = it.fi
    # sinks: branch / in-place
    for kind, fkey, node, taints, text in sinks:
        for f in sorted(taints):
            out["leaks"].append((f, kind, fkey, text, getattr(node, "lineno", 0)))
    # outputs
    from ..cp import row_writers, output_columns
    cols = output_columns(prog)
    for table, st in row_writers(prog).items():
        n = it.cfg.node_of(st)
        for p in it.node_facts.get(n.id, []):
            for c, e in zip(cols[table], st.value.elts):
                for f in sorted(tflat(it.taint_of(e, p))):
                    out["leaks"].append((f, "output", fi.key, f"{table}.{c} = {norm(e)}", st.lineno))
    # state at exit
    carried = set(fields)
    for p in exits:
        for g in fields:
            v = p.heap.get((ST, g), TOP)
            if v == In(g):
                continue
            carried.discard(g)
            for f in sorted(tflat(p.taint.get(("h", ST, g), frozenset()))):
                out["leaks"].append((f, "state", fi.key, f"next-day value of {g}", 0))
    out["carried"] = sorted(carried)
    # general day for the carried fields
    if carried:
        entry2 = {f: ((In(f), frozenset([f])) if f in carried else (TOP, frozenset())) for f in fields}
        it2, sinks2 = _day(prog, entry2, config, premise=False)
        for kind, fkey, node, taints, text in sinks2:
            for f in sorted(taints):
                out["general_leaks"].append((f, kind, fkey, text, getattr(node, "lineno", 0)))
        for table, st in row_writers(prog).items():
            n = it2.cfg.node_of(st)
            for p in it2.node_facts.get(n.id, []):
                for c, e in zip(cols[table], st.value.elts):
                    for f in sorted(tflat(it2.taint_of(e, p))):
                        out["general_leaks"].append((f, "output", fi.key, f"{table}.{c} = {norm(e)}", st.lineno))
        still = set(carried)
        for p in it2.in_states.get(it2.cfg.exit, []):
            for g in fields:
                v = p.heap.get((ST, g), TOP)
                if v == In(g):
                    continue
                still.discard(g)
                for f in sorted(tflat(p.taint.get(("h", ST, g), frozenset()))):
                    out["general_leaks"].append((f, "state", fi.key, f"next-day value of {g}", 0))
        out["constant_on_valuation"] = sorted(still)
    else:
        out["constant_on_valuation"] = []
    return out


_ARGS = None


def _worker(i):
    return _run_cfg(_ARGS[i])


def rule_a(chk, prog):
    restored, deps, fields, rit = reset_summary(prog, chk)
    chk.floor("C08.a-fields", len(fields), 70, "fields of InitialCondition")
    chk.floor("C08.a-restored", len(restored), 45, "fields restored by the season reset")
    chk.notes["restored_fields"] = sorted(restored)
    unreset = [f for f in fields if f not in restored]
    chk.notes["fields_not_restored"] = unreset
    # fields written by update_time / reset themselves (not run constants)
    roles = step_roles(prog)
    written_elsewhere: Set[str] = set()
    for key in (RESET_FN, UPDATE_FN):
        fi = prog.funcs[key]
        for st in stores(prog, fi, roles):
            for p in st.paths:
                if p.startswith("STATE."):
                    written_elsewhere.add(p.split(".")[1].split("[")[0])
    # restored values may only depend on run constants
    # run constants: state fields that nothing below the step, the time update or the reset ever stores (set once by the initial conditions)
    stored_fields: Set[str] = set(written_elsewhere)
    for key in sorted(roles.reached):
        for st in stores(prog, prog.funcs[key], roles):
            for p in st.paths:
                if p.startswith("STATE."):
                    stored_fields.add(p.split(".")[1].split("[")[0])
    run_constants = {f for f in fields if f not in stored_fields}
    chk.notes["state_run_constants"] = sorted(run_constants)
    if "thini" not in run_constants:
        chk.violation("C08.a", RESET_FN, "thini is a run constant", "the configured initial water content is stored to after initialisation", loc=prog.func(RESET_FN).loc())
    for f, d in sorted(deps.items()):
        bad = sorted(x for x in d if x not in run_constants)
        construct = f"reset value of {f}"
        if bad:
            chk.violation("C08.a", RESET_FN, construct, f"the value restored into {f} depends on previous-season state {bad}",
                          loc=prog.func(RESET_FN).loc())
    # compare literal reset values with the constructor defaults of a fresh run
    ci = prog.cls("InitialCondition")
    ncmp = 0
    for f, v in sorted(restored.items()):
        if isinstance(v, Const) and len(ci.init_fields[f]) == 1 and isinstance(ci.init_fields[f][0], ast.Constant):
            d = ci.init_fields[f][0].value
            ncmp += 1
            construct = f"reset value of {f} vs constructor default"
            same = (v.v == d) and (isinstance(v.v, bool) == isinstance(d, bool))
            if same:
                chk.ok("C08.a", RESET_FN, construct, f"{v.v!r} == {d!r}")
            else:
                chk.violation("C08.a", RESET_FN, construct,
                              f"the season reset sets {f} = {v.v!r} but a fresh run starts from {d!r}", loc=prog.func(RESET_FN).loc())
    chk.floor("C08.a-literals", ncmp, 40, "literal reset values compared with constructor defaults")

    global _ARGS
    configs = [{"water_table": 0}, {"water_table": 1}]
    _ARGS = [(prog, restored, deps, fields, c) for c in configs]
    import multiprocessing as mp
    with mp.get_context("fork").Pool(len(_ARGS)) as pool:
        results = pool.map(_worker, range(len(_ARGS)))
    chk.fn(STEP_FN)
    for res in results:
        cfgs = ", ".join(f"{k}={v}" for k, v in res["config"].items())
        chk.valuation(f"first day of a season, sim_off_season=False, {cfgs}")
        leaks: Dict[str, list] = {}
        for f, kind, fkey, text, line in res["leaks"] + res["general_leaks"]:
            leaks.setdefault(f, []).append((kind, fkey, text, line))
        const_here = set(res["constant_on_valuation"]) - written_elsewhere
        for f in unreset:
            construct = f"{f} | {cfgs}"
            if f not in leaks:
                how = "overwritten before any use on the first day of the season"
                if f in res["carried"]:
                    how = "never used while it still holds the previous season's value"
                chk.ok("C08.a", STEP_FN, construct, how)
                continue
            if f in const_here:
                chk.ok("C08.a", STEP_FN, construct, "run constant on this valuation: never modified after initialisation")
                continue
            kind, fkey, text, line = leaks[f][0]
            fi = prog.funcs[fkey]
            chk.violation("C08.a", STEP_FN, construct,
                          f"state field '{f}' is not restored at season start and its previous-season value reaches a "
                          f"{kind} sink: {text} in {fi.qualname}" + (f" (+{len(leaks[f]) - 1} more)" if len(leaks[f]) > 1 else ""),
                          loc=f"{fi.path}:{line}")
        # restored fields must not leak either (their taints are run constants only) - informational
    chk.assume("A-1")


def rule_b(chk, prog):
    """thini is never aliased with th and never written in place."""
    n = 0
    for name, roles in (("init", init_roles(prog)), ("step", step_roles(prog))):
        for a, tgts in sorted(roles.alias.items()):
            n += 1
            pair = None
            if a == "STATE.thini" and any(t == "STATE.th" or t.startswith("STATE.th[") for t in tgts):
                pair = ("thini", "th")
            if a == "STATE.th" and any(t == "STATE.thini" or t.startswith("STATE.thini[") for t in tgts):
                pair = ("th", "thini")
            if pair:
                # locate the aliasing statement
                loc, where, text = "", "", ""
                for key in roles.reached:
                    fi = prog.funcs[key]
                    for st in stores(prog, fi, roles):
                        if st.kind == "attr" and st.field == pair[0] and any(p == f"STATE.{pair[0]}" for p in st.paths):
                            v = getattr(st.node, "value", None)
                            if v is not None and any(q == f"STATE.{pair[1]}" for q in roles.paths(fi, v)):
                                loc, where, text = fi.loc(st.node), f"{fi.module}:{fi.qualname}", st.text
                chk.violation("C08.b", where or "aquacrop", text or f"STATE.{pair[0]} aliases STATE.{pair[1]}",
                              "the configured initial water content and the live water content are the same array: in-place "
                              "updates of th (pre-irrigation, capillary rise, evaporation, transpiration) rewrite the content "
                              "later seasons are reset to", loc=loc)
        for key in sorted(roles.reached):
            fi = prog.funcs[key]
            for st in stores(prog, fi, roles):
                if st.inplace and any(p.startswith("STATE.thini[") for p in st.paths):
                    chk.violation("C08.b", f"{fi.module}:{fi.qualname}", st.text, "in-place write to the configured initial water content",
                                  loc=fi.loc(st.node))
    # ... nor bound to the same local array as the live content (a fresh local has no access path: compare the reaching definitions)
    from ..rdef import flow_of as _flow_of, ENTRY as _ENTRY

    def origins(fi, flow, v, nid, depth=0):
        if isinstance(v, ast.Name) and nid is not None and depth < 8:
            out = set()
            for d in flow.defs_reaching(v.id, nid):
                a = flow.cfg.nodes[d].ast if d != _ENTRY else None
                if isinstance(a, ast.Assign) and isinstance(a.value, ast.Name):
                    out |= origins(fi, flow, a.value, d, depth + 1)
                else:
                    out.add((v.id if d == _ENTRY else "", d))
            return out
        return set()
    for name, roles in (("init", init_roles(prog)), ("step", step_roles(prog))):
        for key in sorted(roles.reached):
            fi = prog.funcs[key]
            sts = [st for st in stores(prog, fi, roles) if st.kind == "attr" and st.field in ("th", "thini")
                   and any(p in ("STATE.th", "STATE.thini") for p in st.paths) and getattr(st.node, "value", None) is not None]
            snap = [st for st in sts if st.field == "thini"]
            live = [st for st in sts if st.field == "th"]
            if not snap or not live:
                continue
            flow = _flow_of(fi)
            for a in snap:
                oa = origins(fi, flow, a.node.value, flow.stmt_node.get(id(a.node)))
                for b in live:
                    ob = origins(fi, flow, b.node.value, flow.stmt_node.get(id(b.node)))
                    n += 1
                    if oa & ob:
                        chk.violation("C08.b", f"{fi.module}:{fi.qualname}", a.text,
                                      f"the configured initial water content is bound to the same local array as the live water content (`{b.text}`): "
                                      "in-place updates of th rewrite the content later seasons are reset to", loc=fi.loc(a.node))
    # The snapshot `thini` holds the water content *as requested*; what the water table of the day does to it (adjusted field capacity where
    # field capacity was requested, saturation below a table inside the profile) is applied after the snapshot by one helper, and the season
    # reset applies the same helper, with the depth of the season's first day, to the content it restores (F42: a snapshot taken after the
    # adjustments restarts every later season under the first day's water table). Conversely nothing else may touch th after the snapshot.
    ir = init_roles(prog)
    sr = step_roles(prog)
    from ..rdef import flow_of
    helpers = {}
    for key in sorted(ir.reached):
        fi = prog.funcs[key]
        snaps = [st for st in stores(prog, fi, ir) if st.kind == "attr" and st.field == "thini" and any(p == "STATE.thini" for p in st.paths)]
        if not snaps:
            continue
        flow = flow_of(fi)
        cfg = flow.cfg
        writes = [st for st in stores(prog, fi, ir) if (st.kind == "attr" and st.field == "th" and any(p == "STATE.th" for p in st.paths))
                  or (st.inplace and any(p.startswith("STATE.th[") for p in st.paths))]
        for sn in snaps:
            k = flow.stmt_node.get(id(sn.node))
            late, embedded = [], []
            for w in writes:
                wk = flow.stmt_node.get(id(w.node)) or flow.node_of(w.node)
                if k is None or wk is None or wk == k:
                    continue
                if cfg.paths_exist_avoiding(k, wk, set()):
                    v = getattr(w.node, "value", None)
                    h = prog.resolve_call(fi, v) if isinstance(v, ast.Call) else None
                    if isinstance(w.node, ast.Assign) and hasattr(h, "key"):
                        helpers.setdefault(h.key, []).append((fi, w.node))
                    else:
                        late.append(w.text[:60])
                elif cfg.paths_exist_avoiding(wk, k, set()):
                    # before the snapshot: must not already contain the water table of the first day
                    v = getattr(w.node, "value", None)
                    deps_ = {norm(cfg.nodes[t].ast) for t, l in cfg.transitive_control_deps(wk) if cfg.nodes[t].kind == "test"}
                    if (v is not None and any(isinstance(x, ast.Attribute) and x.attr in ("th_fc_Adj", "z_gw") for x in ast.walk(v))) \
                            or any("wt_in_soil" in d or "water_table" in d for d in deps_):
                        embedded.append(w.text[:60])
            construct = f"{sn.text[:60]} holds the content as requested"
            if late:
                chk.violation("C08.b", f"{fi.module}:{fi.qualname}", construct, f"the water content is still modified after the snapshot ({'; '.join(sorted(set(late)))}) by "
                              "something the season reset cannot repeat: the first season starts from a profile that later seasons are not reset to", loc=fi.loc(sn.node))
            elif embedded:
                chk.violation("C08.b", f"{fi.module}:{fi.qualname}", construct, f"the snapshot is taken after the adjustment to the water table of the first simulated day "
                              f"({'; '.join(sorted(set(embedded)))}): with a water table that changes over the run every later season restarts under the first day's table",
                              loc=fi.loc(sn.node))
            else:
                chk.ok("C08.b", f"{fi.module}:{fi.qualname}", construct, f"taken before the water-table adjustments; {len(writes)} stores to th examined")
    # the reset repeats each helper on the content it restores
    rs = prog.func(RESET_FN)
    rflow = flow_of(rs)
    rcfg = rflow.cfg
    restores = [a for a in walk_no_nested(rs.node) if isinstance(a, ast.Assign) and isinstance(a.targets[0], ast.Attribute) and a.targets[0].attr == "th"
                and any(isinstance(x, ast.Attribute) and x.attr == "thini" for x in ast.walk(a.value))]
    for hkey, sites_ in sorted(helpers.items()):
        hname = prog.funcs[hkey].name
        construct = f"{hname}(...) applied to the restored water content"
        calls = [a for a in walk_no_nested(rs.node) if isinstance(a, ast.Assign) and isinstance(a.targets[0], ast.Attribute) and a.targets[0].attr == "th"
                 and isinstance(a.value, ast.Call) and getattr(prog.resolve_call(rs, a.value), "key", None) == hkey]
        if not restores or not calls:
            chk.violation("C08.b", RESET_FN, construct, f"the initial conditions adjust the requested water content with {hname} after taking the snapshot, but the season reset "
                          "does not apply it to the content it restores: later seasons start without the water-table adjustment", loc=rs.loc())
            continue
        rn = rflow.stmt_node[id(restores[0])]
        cn = rflow.stmt_node[id(calls[0])]
        deps_ = {(norm(rcfg.nodes[t].ast), l) for t, l in rcfg.transitive_control_deps(cn) if rcfg.nodes[t].kind == "test"}
        ic_fi, ic_node = sites_[0]
        iflow = flow_of(ic_fi)
        ideps = {(norm(iflow.cfg.nodes[t].ast).split(".")[-1], l) for t, l in iflow.cfg.transitive_control_deps(iflow.stmt_node[id(ic_node)]) if iflow.cfg.nodes[t].kind == "test"}
        same_guard = {(t.split(".")[-1], l) for t, l in deps_ if "water_table" in t} == {(t, l) for t, l in ideps if "water_table" in t}
        if rn in rcfg.dominators()[cn] and same_guard:
            chk.ok("C08.b", RESET_FN, construct, "after the restore, under the same water-table test as in the initial conditions")
        else:
            chk.violation("C08.b", RESET_FN, construct, f"{hname} is not applied to the restored content under the same condition as in the initial conditions "
                          "(restore first, then the helper, both under `water_table == 1`)", loc=rs.loc(calls[0]))
    chk.notes["C08.b_adjustment_helpers"] = sorted(helpers)
    # the two sites that bind th / thini produce fresh arrays
    sites = 0
    for roles in (init_roles(prog), step_roles(prog)):
        for key in sorted(roles.reached):
            fi = prog.funcs[key]
            for st in stores(prog, fi, roles):
                if st.kind == "attr" and st.field in ("thini",) and any(p == "STATE.thini" for p in st.paths):
                    sites += 1
                    chk.ok("C08.b", f"{fi.module}:{fi.qualname}", st.text, "binds thini to a value with no alias path")
                if st.kind == "attr" and st.field == "th" and fi.key == RESET_FN:
                    sites += 1
                    chk.ok("C08.b", f"{fi.module}:{fi.qualname}", st.text, "season reset binds th to a fresh array")
    chk.floor("C08.b", sites, 2, "binding sites of thini / reset of th")
    chk.assume("A-10")


def rule_c(chk, prog):
    fi = prog.func(RESET_FN)
    roles = step_roles(prog)
    found = False
    for st in stores(prog, fi, roles):
        if st.kind == "attr" and st.field == "fCO2":
            found = True
            flow_ok = all(p.startswith("PARAM.Seasonal_Crop_List[]") for p in st.paths)
            from ..rdef import flow_of
            flow = flow_of(fi)
            nid = flow.stmt_node.get(id(st.node))
            uncond = nid is not None and not any(flow.cfg.nodes[t].kind == "test" for t, _ in flow.cfg.transitive_control_deps(nid))
            if flow_ok and uncond:
                chk.ok("C08.c", RESET_FN, st.text, "CO2 factor rewritten unconditionally on the season's own crop")
            else:
                chk.violation("C08.c", RESET_FN, st.text, "the CO2 factor is not recomputed unconditionally on the starting season's crop",
                              loc=fi.loc(st.node))
    if not found:
        chk.violation("C08.c", RESET_FN, "crop.fCO2 = ...", "the season reset no longer recomputes the CO2 factor", loc=fi.loc())
    # the crop of the season is Seasonal_Crop_List[season_counter]
    sel = [n for n in walk_no_nested(fi.node) if isinstance(n, ast.Assign) and isinstance(n.value, ast.Subscript)
           and isinstance(n.value.value, ast.Attribute) and n.value.value.attr == "Seasonal_Crop_List"]
    ok = any(isinstance(n.value.slice, ast.Attribute) and n.value.slice.attr == "season_counter" for n in sel)
    if ok:
        chk.ok("C08.c", RESET_FN, norm(sel[0]), "crop selected by the season counter")
    else:
        chk.violation("C08.c", RESET_FN, "crop = ParamStruct.Seasonal_Crop_List[...]", "the crop being reset is not the one of the starting season", loc=fi.loc())
    # per-season deep copies
    cv = prog.find_func("compute_variables")
    deep = any(isinstance(n, ast.ListComp) and isinstance(n.elt, ast.Call) and isinstance(n.elt.func, ast.Name) and n.elt.func.id == "deepcopy"
               for n in walk_no_nested(cv.node))
    if deep:
        chk.ok("C08.c", f"{cv.module}:{cv.qualname}", "[deepcopy(...) for ... in CropChoices]", "one crop object per season")
    else:
        chk.violation("C08.c", f"{cv.module}:{cv.qualname}", "[deepcopy(...) for ... in CropChoices]", "seasons no longer get their own copy of the crop", loc=cv.loc())


def rule_i(chk, prog):
    """C08.i (the latest harvest date of season k does not depend on season 0): when no harvest date is given, read_model_parameters derives ONE
    month/day template from the days to maturity of the first season in the window; the season reset re-derives the days to maturity of a
    thermal-time crop (CalendarType == 2) for every season. A later, cooler season that needs more days than the first is cut by the
    template in the multi-season run, while the single-season run started on its planting date derives its own, later date. Reported on
    today's tree as a known finding (F43): a per-season date would contradict C20's clause that stating the derived default explicitly - one
    month/day - changes nothing."""
    rmp = prog.find_func("read_model_parameters")
    rs = prog.func(RESET_FN)
    derived = [a for a in walk_no_nested(rmp.node) if isinstance(a, ast.Assign) and isinstance(a.targets[0], ast.Attribute) and a.targets[0].attr == "harvest_date"]
    from ..rdef import flow_of, ENTRY
    flow = flow_of(rmp)
    uses_maturity = False
    for a in derived:
        nid = flow.stmt_node.get(id(a))
        seen, work = set(), [x.id for x in ast.walk(a.value) if isinstance(x, ast.Name)]
        while work:
            nm = work.pop()
            for d in flow.defs_reaching(nm, nid):
                if d == ENTRY or (nm, d) in seen:
                    continue
                seen.add((nm, d))
                da = flow.cfg.nodes[d].ast
                v = getattr(da, "value", None)
                if v is None:
                    continue
                if any(isinstance(x, ast.Attribute) and x.attr == "MaturityCD" for x in ast.walk(v)):
                    uses_maturity = True
                work += [x.id for x in ast.walk(v) if isinstance(x, ast.Name)]
    rflow = flow_of(rs)
    rederived = []
    for a in walk_no_nested(rs.node):
        if isinstance(a, ast.Assign) and isinstance(a.targets[0], ast.Attribute) and a.targets[0].attr == "MaturityCD":
            nid = rflow.stmt_node.get(id(a))
            deps_ = {(norm(rflow.cfg.nodes[t].ast), l) for t, l in rflow.cfg.transitive_control_deps(nid) if rflow.cfg.nodes[t].kind == "test"} if nid is not None else set()
            if any("CalendarType == 2" in t and l is True for t, l in deps_):
                rederived.append(a)
    chk.fn(rmp.key); chk.fn(rs.key)
    chk.notes["C08.i"] = {"template_from_MaturityCD": uses_maturity, "per_season_rederivations": len(rederived)}
    if uses_maturity and rederived:
        chk.violation("C08.i", f"{rmp.module}:{rmp.qualname}", "crop.harvest_date = month/day of planting + first season's MaturityCD + 30; MaturityCD re-derived per season (CalendarType 2)",
                      "the derived latest harvest date of every season is the first season's: a later season of a thermal-time crop that needs more days is cut short in the "
                      "multi-season run but not when run alone", loc=rmp.loc(derived[0]))
    else:
        chk.ok("C08.i", f"{rmp.module}:{rmp.qualname}", "derived harvest template vs per-season days to maturity", "no template from one season's maturity, or maturity not re-derived per season")


def rule_h(chk, prog):
    """C08.h (a season starts from the ponding configured for the *season*): the ponding depth the reset restores when the off-season is skipped
    is computed from the in-season field management (access path PARAM.FieldMngt) - as the initial conditions do for a run that starts in
    season 0 - never from the fallow management: a single-season run started at planting k sees the in-season bund water."""
    from ..common import step_roles, RESET_FN
    roles = step_roles(prog)
    fi = prog.func(RESET_FN)
    chk.fn(fi.key)
    where = f"{fi.module}:{fi.qualname}"
    n = 0
    for a in walk_no_nested(fi.node):
        if not (isinstance(a, ast.Assign) and isinstance(a.targets[0], ast.Attribute) and a.targets[0].attr == "surface_storage"):
            continue
        reads = [x for x in ast.walk(a.value) if isinstance(x, ast.Attribute) and x.attr in ("bund_water", "z_bund", "bunds")]
        if not reads:
            continue
        n += 1
        construct = norm(a)
        bad = []
        for x in reads:
            ps = roles.paths(fi, x.value)
            if not ps or not all(p == "PARAM.FieldMngt" or p.startswith("PARAM.FieldMngt.") or p.startswith("PARAM.FieldMngt[") for p in ps):
                bad.append(f"{norm(x)} <- {sorted(ps) or '?'}")
        if bad:
            chk.violation("C08.h", where, construct, f"the ponding a new season starts from is not taken from the in-season field management ({'; '.join(bad)}): season k of "
                          "a multi-season run starts with other ponded water than a single-season run started on its planting date", loc=fi.loc(a))
        else:
            chk.ok("C08.h", where, construct, "from the in-season field management (PARAM.FieldMngt)")
    chk.floor("C08.h", n, 1, "ponding restored from the bund settings in the season reset")


def run(chk, prog, tier):
    rule_a(chk, prog)
    rule_b(chk, prog)
    rule_c(chk, prog)
    rule_d(chk, prog)
    from ._siblings import season_aggregate_calendar
    season_aggregate_calendar(chk, prog, "C08.e")
    from ._siblings import co2_factor_agreement
    chk.floor("C08.f", co2_factor_agreement(chk, prog, "C08.f"), 7, "CO2-factor quantities compared")
    # C08.k = C05.c: the degree-day formula the season reset uses to re-derive a thermal-time crop's calendar applies the same clamps as the one
    # of the first season's initialisation and of the daily step (a season converted with another formula differs from the single-season run)
    from ._siblings import gdd_clamp_agreement
    gdd_clamp_agreement(chk, prog, "C08.k")
    from ._siblings import season_table_index
    season_table_index(chk, prog, "C08.l")
    from ._siblings import derived_crop_params_agreement
    chk.floor("C08.j", derived_crop_params_agreement(chk, prog, "C08.j"), 2, "calendar-derived crop parameters compared")
    from ._siblings import co2_series_rules
    co2_series_rules(chk, prog, rule_lookup="C08.g")
    rule_h(chk, prog)
    rule_i(chk, prog)
    chk.exhaustive = True


def rule_d(chk, prog):
    """everything a season reads besides the restored state must be the same in the multi-season run and in the single-season run:
    the weather matrix is never written while stepping (C12.a restricted to the weather paths; a season-start routine that edits a
    view of it - e.g. clipping temperatures in place - changes what the later seasons see)"""
    roles = step_roles(prog)
    n = 0
    for key in sorted(roles.reached):
        fi = prog.funcs[key]
        where = f"{fi.module}:{fi.qualname}"
        for st in stores(prog, fi, roles):
            if st.kind == "attr" and not any(p.startswith("WEATHER") for p in st.paths):
                continue
            # in-place stores whose target may be (a view of) the weather matrix
            w = sorted(p for p in st.paths if p == "WEATHER" or p.startswith("WEATHER[") or p.startswith("WEATHER."))
            if st.kind in ("elem", "aug", "mutcall"):
                n += 1
                if w:
                    chk.violation("C08.d", where, st.text, f"in-place {st.kind} store into the model's weather matrix ({', '.join(w)}): the later "
                                  "seasons of a multi-season run then read different weather than a run started at their planting date",
                                  loc=fi.loc(st.node))
                else:
                    chk.ok("C08.d", where, st.text, "target is not (a view of) the weather matrix", nontrivial=False)
    chk.floor("C08.d", n, 60, "in-place stores examined below _perform_timestep")
