"""Evaluation of 'crop-pure' expressions over the effective-crop table.

An expression is crop-pure when its leaves are literals, attributes of a crop-role object,
formals bound to crop attributes at every call site, or locals whose single reaching
definition is itself crop-pure.
"""
from __future__ import annotations
import ast
import math
import re
from typing import Dict, Optional, Set

from .model import Program, FuncInfo
from .rdef import flow_of, ENTRY
from .roles import Roles

CROP_OBJ = re.compile(r"^(USER\.crop|PARAM\.(Seasonal_Crop_List\[\]|Fallow_Crop|CropList\[\]|python_crop_list\[\]))$")


class NotPure(Exception):
    pass


def crop_attr_of_paths(paths: Set[str]) -> Optional[str]:
    """If every path denotes the same attribute X of a crop object, return X."""
    attrs = set()
    for p in paths:
        m = re.match(r"^(.*)\.(\w+)$", p)
        if not m or not CROP_OBJ.match(m.group(1)):
            return None
        attrs.add(m.group(2))
    return attrs.pop() if len(attrs) == 1 else None


def is_crop_obj(paths: Set[str]) -> bool:
    return bool(paths) and all(CROP_OBJ.match(p) for p in paths)


class PureEval:
    def __init__(self, prog: Program, roles_list, fi: FuncInfo, crop: Dict[str, object]):
        self.prog = prog
        self.roles_list = roles_list
        self.fi = fi
        self.crop = crop
        self.flow = flow_of(fi)
        self.depth = 0

    def _paths(self, e) -> Set[str]:
        out = set()
        for r in self.roles_list:
            if self.fi.key in r.reached:
                out |= r.paths(self.fi, e)
        return out

    def _is_crop_self(self, e) -> bool:
        return (isinstance(e, ast.Name) and self.fi.cls == "Crop" and self.fi.node.args.args
                and e.id == self.fi.node.args.args[0].arg)

    def attr(self, name: str):
        if name not in self.crop:
            raise NotPure(f"crop attribute {name} not constant")
        return self.crop[name]

    def ev(self, e: ast.AST):
        if isinstance(e, ast.Constant):
            if isinstance(e.value, (int, float, bool, str)) or e.value is None:
                return e.value
            raise NotPure("constant")
        if isinstance(e, ast.Attribute):
            if self._is_crop_self(e.value) or is_crop_obj(self._paths(e.value)):
                return self.attr(e.attr)
            raise NotPure(ast.unparse(e))
        if isinstance(e, ast.Name):
            if e.id in ("True", "False", "None"):
                return {"True": True, "False": False, "None": None}[e.id]
            paths = self._paths(e)
            a = crop_attr_of_paths(paths) if paths else None
            nid = self.flow.node_of(e)
            defs = self.flow.defs_reaching(e.id, nid) if nid is not None else []
            if a is not None and defs == [ENTRY]:
                return self.attr(a)
            if len(defs) == 1 and defs[0] != ENTRY:
                dn = self.flow.cfg.nodes[defs[0]]
                st = dn.ast
                if isinstance(st, ast.Assign) and len(st.targets) == 1 and isinstance(st.targets[0], ast.Name) \
                        and st.targets[0].id == e.id:
                    self.depth += 1
                    if self.depth > 12:
                        raise NotPure("depth")
                    try:
                        return self.ev(st.value)
                    finally:
                        self.depth -= 1
            raise NotPure(e.id)
        if isinstance(e, ast.Subscript):
            base = self.ev(e.value)
            idx = self.ev(e.slice) if not isinstance(e.slice, ast.Slice) else None
            if isinstance(base, (list, tuple)) and isinstance(idx, int):
                return base[idx]
            raise NotPure("subscript")
        if isinstance(e, ast.UnaryOp):
            v = self.ev(e.operand)
            if isinstance(e.op, ast.USub):
                return -v
            if isinstance(e.op, ast.UAdd):
                return +v
            if isinstance(e.op, ast.Not):
                return not v
            raise NotPure("unary")
        if isinstance(e, ast.BinOp):
            l, r = self.ev(e.left), self.ev(e.right)
            if not isinstance(l, (int, float)) or not isinstance(r, (int, float)):
                raise NotPure("non numeric")
            op = type(e.op)
            if op in (ast.Div, ast.FloorDiv, ast.Mod) and r == 0:
                raise ZeroDivisionError
            return {ast.Add: lambda: l + r, ast.Sub: lambda: l - r, ast.Mult: lambda: l * r, ast.Div: lambda: l / r,
                    ast.FloorDiv: lambda: l // r, ast.Mod: lambda: l % r, ast.Pow: lambda: l ** r}[op]()
        if isinstance(e, ast.Compare):
            cur = self.ev(e.left)
            res = True
            for op, c in zip(e.ops, e.comparators):
                v = self.ev(c)
                o = type(op)
                ok = {ast.Lt: lambda: cur < v, ast.LtE: lambda: cur <= v, ast.Gt: lambda: cur > v, ast.GtE: lambda: cur >= v,
                      ast.Eq: lambda: cur == v, ast.NotEq: lambda: cur != v, ast.Is: lambda: cur is v or cur == v,
                      ast.IsNot: lambda: not (cur is v or cur == v)}.get(o)
                if ok is None:
                    raise NotPure("cmp")
                res = res and ok()
                cur = v
            return res
        if isinstance(e, ast.BoolOp):
            if isinstance(e.op, ast.And):
                for v in e.values:
                    if not self.ev(v):
                        return False
                return True
            for v in e.values:
                if self.ev(v):
                    return True
            return False
        if isinstance(e, ast.IfExp):
            return self.ev(e.body) if self.ev(e.test) else self.ev(e.orelse)
        if isinstance(e, ast.Call) and not e.keywords:
            fn = None
            if isinstance(e.func, ast.Name):
                fn = e.func.id
            elif isinstance(e.func, ast.Attribute):
                ext = self.prog.external_name(self.fi, e.func)
                if ext and ext.startswith("numpy."):
                    fn = "np." + ext.split(".", 1)[1]
            tab = {"round": round, "int": int, "float": float, "abs": abs, "max": max, "min": min,
                   "np.log": math.log, "np.exp": math.exp, "np.log10": math.log10, "np.sqrt": math.sqrt,
                   "np.power": lambda a, b: a ** b, "np.maximum": max, "np.minimum": min, "np.abs": abs}
            if fn in tab:
                args = [self.ev(a) for a in e.args]
                return tab[fn](*args)
        raise NotPure(type(e).__name__)
